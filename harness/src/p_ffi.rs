//! C14: the C FFI driven in-process under a counting allocator.
use crate::fw::*;
use crate::gen::*;
use crate::notation::*;
use bp7::bundle::Bundle;
use bp7::ffi::*;
use std::alloc::{GlobalAlloc, Layout, System};
use std::cell::Cell;
use std::convert::TryFrom;
use std::ffi::{CStr, CString};
use std::sync::atomic::{AtomicI64, Ordering};

pub struct Counting;
static LIVE: AtomicI64 = AtomicI64::new(0);
thread_local! { static ACTIVE: Cell<bool> = const { Cell::new(false) }; }
// byte meter (C06: allocation in proportion to the input)
thread_local! { static METER: Cell<bool> = const { Cell::new(false) }; static CUR: Cell<i64> = const { Cell::new(0) }; static PEAK: Cell<i64> = const { Cell::new(0) }; }
fn meter(delta: i64) {
    if METER.try_with(|m| m.get()).unwrap_or(false) {
        let _ = CUR.try_with(|c| { let v = c.get() + delta; c.set(v); let _ = PEAK.try_with(|p| if v > p.get() { p.set(v) }); });
    }
}
/// run `f` and return the peak number of bytes it held allocated at any one time (above the level at entry)
pub fn metered<T>(f: impl FnOnce() -> T) -> (T, u64) {
    CUR.with(|c| c.set(0)); PEAK.with(|p| p.set(0));
    METER.with(|m| m.set(true));
    let r = f();
    METER.with(|m| m.set(false));
    (r, PEAK.with(|p| p.get()).max(0) as u64)
}

unsafe impl GlobalAlloc for Counting {
    unsafe fn alloc(&self, l: Layout) -> *mut u8 {
        if ACTIVE.try_with(|a| a.get()).unwrap_or(false) { LIVE.fetch_add(1, Ordering::Relaxed); }
        meter(l.size() as i64);
        System.alloc(l)
    }
    unsafe fn dealloc(&self, p: *mut u8, l: Layout) {
        if ACTIVE.try_with(|a| a.get()).unwrap_or(false) { LIVE.fetch_sub(1, Ordering::Relaxed); }
        meter(-(l.size() as i64));
        System.dealloc(p, l)
    }
    unsafe fn realloc(&self, p: *mut u8, l: Layout, n: usize) -> *mut u8 { meter(n as i64 - l.size() as i64); System.realloc(p, l, n) }
}

/// run an FFI call with allocation counting switched on
fn counted<T>(f: impl FnOnce() -> T) -> T {
    ACTIVE.with(|a| a.set(true));
    let r = f();
    ACTIVE.with(|a| a.set(false));
    r
}

// mirror of the #[repr(C)] structs (fields are private in the crate)
#[repr(C)] struct RawBuffer { data: *mut u8, len: u32 }
#[repr(C)] struct RawMeta { src: *mut std::os::raw::c_char, dst: *mut std::os::raw::c_char, timestamp: u64, seqno: u64, lifetime: u64 }

enum H { Buffer(*mut Buffer), Bundle(*mut Bundle, Option<Vec<u8>>), Meta(*mut BundleMetaData), Freed }

unsafe fn buf_content(b: *mut Buffer) -> Option<Vec<u8>> {
    let r = &*(b as *mut RawBuffer);
    if r.data.is_null() { None } else { Some(std::slice::from_raw_parts(r.data, r.len as usize).to_vec()) }
}

pub fn exec(line: &str, _model: &mut Model) -> Option<Exec> {
    let rest = line.strip_prefix("ffi ")?;
    if let Ok(p) = std::env::var("BP7H_LASTLINE") { let _ = std::fs::write(p, line); }
    let calls: Vec<&str> = rest.split(';').collect();
    let mut hs: Vec<H> = vec![];
    let mut out: Vec<String> = vec![];
    let mut fail: Option<String> = None;
    let mut model_calls: Vec<String> = vec![];
    let before = LIVE.load(Ordering::Relaxed);
    for c in &calls {
        let p: Vec<&str> = c.split(':').collect();
        model_calls.push(c.to_string());
        unsafe {
            match p[0] {
                "W" => { let v = bp7_working(); out.push((v == 23).to_string()); if v != 23 && fail.is_none() { fail = Some(format!("bp7_working() returned {}", v)); } }
                "R" => {
                    // helper_rnd_bundle: a buffer holding an encoded, valid bundle; the model is told the bytes
                    let b = counted(|| helper_rnd_bundle());
                    let content = buf_content(b);
                    let okb = content.as_ref().and_then(|v| Bundle::try_from(v.as_slice()).ok()).map(|x| x.validate().is_ok()).unwrap_or(false);
                    if !okb && fail.is_none() { fail = Some("helper_rnd_bundle did not return the encoding of a valid bundle".into()); }
                    out.push(format!("buf{}:{}", hs.len(), content.as_ref().map(|v| hex(v)).unwrap_or("null".into())));
                    *model_calls.last_mut().unwrap() = format!("R:{}", content.map(|v| hex(&v)).unwrap_or("-".into()));
                    hs.push(H::Buffer(b));
                }
                "T" => { let b = counted(|| bp7_buffer_test()); out.push(format!("buf{}:{}", hs.len(), buf_content(b).map(|v| hex(&v)).unwrap_or("null".into()))); hs.push(H::Buffer(b)); }
                "D" => {
                    let mut bytes = unhex(p.get(1)?)?;
                    let mut inbuf = RawBuffer { data: bytes.as_mut_ptr(), len: bytes.len() as u32 };
                    if bytes.is_empty() { inbuf.data = std::ptr::NonNull::<u8>::dangling().as_ptr(); }
                    let original = bytes.clone();
                    let r = counted(|| bundle_from_cbor(&mut inbuf as *mut RawBuffer as *mut Buffer));
                    // the input buffer belongs to the caller: decoding must leave it as it was
                    if bytes != original && fail.is_none() { fail = Some("bundle_from_cbor modified the caller's input buffer".into()); }
                    let bytes = original;
                    let api = no_panic(|| Bundle::try_from(bytes.as_slice()).ok().filter(|b| b.validate().is_ok())).flatten();
                    if r.is_null() { out.push("null".into()); if api.is_some() && fail.is_none() { fail = Some("valid bundle answered with a null pointer".into()); } }
                    else { out.push(format!("h{}", hs.len())); if api.is_none() && fail.is_none() { fail = Some("invalid input answered with a bundle".into()); } hs.push(H::Bundle(r, Some(bytes.clone()))); }
                }
                "N" => {
                    let src = CString::new(unhex(p.get(1)?)?).ok()?;
                    let dst = CString::new(unhex(p.get(2)?)?).ok()?;
                    let life: u64 = p.get(3)?.parse().ok()?;
                    let mut pl = unhex(p.get(4)?)?;
                    let clock: u64 = p.get(5)?.parse().ok()?;
                    // only inputs the header documents as valid (the function unwraps everything else)
                    let s_ok = bp7::EndpointID::try_from(src.to_str().ok()?).is_ok();
                    let d_ok = bp7::EndpointID::try_from(dst.to_str().ok()?).map(|e| e != bp7::EndpointID::none()).unwrap_or(false);
                    if !s_ok || !d_ok { return None; }
                    crate::p_misc::set_clock_dtn(clock);
                    let mut inbuf = RawBuffer { data: pl.as_mut_ptr(), len: pl.len() as u32 };
                    if pl.is_empty() { inbuf.data = std::ptr::NonNull::<u8>::dangling().as_ptr(); }
                    let r = counted(|| bundle_new_default(src.as_ptr(), dst.as_ptr(), life, &mut inbuf as *mut RawBuffer as *mut Buffer));
                    out.push(format!("h{}", hs.len())); hs.push(H::Bundle(r, None));
                }
                "E" | "M" | "P" | "V" => {
                    let k: usize = p.get(1)?.parse().ok()?;
                    let (bp, src_bytes) = match hs.get(k) { Some(H::Bundle(b, s)) => (*b, s.clone()), _ => { out.push("misuse".into()); continue; } };
                    let api = src_bytes.as_ref().and_then(|s| Bundle::try_from(s.as_slice()).ok());
                    match p[0] {
                        "E" => { let b = counted(|| bundle_to_cbor(bp)); let c = buf_content(b); out.push(format!("buf{}:{}", hs.len(), c.as_ref().map(|v| hex(v)).unwrap_or("null".into())));
                                 if let Some(mut a) = api { if Some(a.to_cbor()) != c && fail.is_none() { fail = Some("bundle_to_cbor differs from Bundle::to_cbor".into()); } }
                                 hs.push(H::Buffer(b)); }
                        "P" => { let b = counted(|| bundle_payload(bp)); let c = buf_content(b); out.push(format!("buf{}:{}", hs.len(), c.as_ref().map(|v| hex(v)).unwrap_or("null".into())));
                                 if let Some(a) = api { if a.payload().cloned() != c && fail.is_none() { fail = Some("bundle_payload differs from Bundle::payload".into()); } }
                                 hs.push(H::Buffer(b)); }
                        "V" => { let v = counted(|| bundle_is_valid(bp)); out.push(format!("{}", v)); if let Some(a) = api { if a.validate().is_ok() != v && fail.is_none() { fail = Some("bundle_is_valid differs from validate()".into()); } } }
                        _ => { let m = counted(|| bundle_get_metadata(bp));
                               // a string with a NUL byte cannot be a C string: null is the only honest answer, and only then
                               let nul = api.as_ref().map(|a| a.primary.source.to_string().contains('\0') || a.primary.destination.to_string().contains('\0'));
                               if m.is_null() {
                                   out.push("null".into());
                                   if nul == Some(false) && fail.is_none() { fail = Some("bundle_get_metadata returned null for endpoint IDs without a NUL byte".into()); }
                                   continue;
                               }
                               if nul == Some(true) && fail.is_none() { fail = Some("bundle_get_metadata returned C strings for an endpoint ID with a NUL byte (they cannot agree with the Rust API)".into()); }
                               let r = &*(m as *mut RawMeta);
                               let s = CStr::from_ptr(r.src).to_bytes().to_vec(); let d = CStr::from_ptr(r.dst).to_bytes().to_vec();
                               out.push(format!("meta{}:{}:{}:{}:{}:{}", hs.len(), hex(&s), hex(&d), r.timestamp, r.seqno, r.lifetime));
                               if let Some(a) = api { if (a.primary.source.to_string().into_bytes(), a.primary.destination.to_string().into_bytes(), a.primary.creation_timestamp.dtntime(), a.primary.creation_timestamp.seqno(), a.primary.lifetime.as_millis() as u64) != (s, d, r.timestamp, r.seqno, r.lifetime) && fail.is_none() { fail = Some("metadata differs from the Rust API".into()); } }
                               hs.push(H::Meta(m)); }
                    }
                }
                "PN" => { // bundle_payload(NULL): a Buffer with null data, to be released with buffer_free like any other
                    let b = counted(|| bundle_payload(std::ptr::null_mut()));
                    let c = buf_content(b);
                    out.push(format!("buf{}:{}", hs.len(), c.as_ref().map(|v| hex(v)).unwrap_or("null".into())));
                    if c.is_some() && fail.is_none() { fail = Some("bundle_payload(NULL) returned data".into()); }
                    hs.push(H::Buffer(b));
                }
                "FBN" => { counted(|| buffer_free(std::ptr::null_mut())); out.push("-".into()); }
                "FUN" => { counted(|| bundle_free(std::ptr::null_mut())); out.push("-".into()); }
                "FB" | "FU" | "FM" => {
                    let k: usize = p.get(1)?.parse().ok()?;
                    let cur = std::mem::replace(hs.get_mut(k)?, H::Freed);
                    match (p[0], cur) {
                        ("FB", H::Buffer(b)) => { counted(|| buffer_free(b)); out.push("-".into()); }
                        ("FU", H::Bundle(b, _)) => { counted(|| bundle_free(b)); out.push("-".into()); }
                        ("FM", H::Meta(m)) => { counted(|| bundle_metadata_free(m)); out.push("-".into()); }
                        (_, other) => { hs[k] = other; out.push("misuse".into()); }
                    }
                }
                _ => return None,
            }
        }
    }
    let all_freed = hs.iter().all(|h| matches!(h, H::Freed));
    let leak = LIVE.load(Ordering::Relaxed) - before;
    // release what the sequence left behind (not part of the case)
    for h in hs { unsafe { match h { H::Buffer(b) => buffer_free(b), H::Bundle(b, _) => bundle_free(b), H::Meta(m) => bundle_metadata_free(m), H::Freed => {} } } }
    out.push(if all_freed { format!("leak={}", leak) } else { "leak=?".into() });
    if all_freed && leak != 0 && fail.is_none() { fail = Some(format!("{} allocations made by the library are still live after every object was freed", leak)); }
    let mut e = Exec::new(format!("ok {}", out.join(" ")));
    e.oracle_fail = fail;
    e.tags.push(format!("complete:{}", all_freed));
    if model_calls.iter().any(|c| c.starts_with("R:")) { e.model_line = Some(format!("ffi {}", model_calls.join(";"))); }
    Some(e)
}

pub fn generate(ctx: &mut Ctx, rep: &mut Report, emit: &mut dyn FnMut(&mut Ctx, &mut Report, String)) {
    let mut rng = Rng::new(ctx.seed ^ 0xC14);
    let mut clock = 1_000_000u64;
    for i in 0..ctx.n(2_000, 100_000) {
        let mut calls: Vec<String> = vec![];
        let mut live_bundles: Vec<usize> = vec![];
        let mut live_bufs: Vec<usize> = vec![];
        let mut live_meta: Vec<usize> = vec![];
        let mut nul_handles: Vec<usize> = vec![];
        let mut next = 0usize;
        let n = 1 + rng.below(8);
        for _ in 0..n {
            match rng.below(10) {
                0 => { if rng.chance(1, 3) { calls.push("R".into()); } else if rng.chance(1, 3) { calls.push("PN".into()); } else { calls.push("T".into()); } live_bufs.push(next); next += 1; if rng.chance(1, 10) { calls.push("W".into()); }
                       if rng.chance(1, 10) { calls.push((if rng.chance(1, 2) { "FBN" } else { "FUN" }).into()); } }
                1..=4 => {
                    // decode: valid bundle, mutated bundle, random bytes, empty
                    let mut nul_bundle = false;
                    let bytes = match rng.below(8) {
                        0 => { let k = rng.below(40) as usize; rng.bytes(k) }
                        1 => vec![],
                        2 => { let mut b = gen_bundle(&mut rng, &Opts { wf: true, max_blocks: 4 }); let v = b.to_cbor(); crate::p_rx::mutate(&mut rng, &v) }
                        // (every 5th time) a bundle naming an endpoint in wire form: any text, also without "//" and with multi-byte
                        // characters at small byte offsets — the validation inside the C functions must return, not unwind
                        3 if rng.chance(1, 5) => { let mut b = gen_valid_bundle(&mut rng);
                               const RAW: [&str; 14] = ["/é/node1", "n€de/x", "aß", "日本/x", "nöde1//svc", "/ö/nod/svc", "€//n1/svc", "abc", "/", "", "😀/n1/svc", "a€/", "//ö", "xé"];
                               let e = bp7::EndpointID::Dtn(1, dtn_address(rng.pick(&RAW).as_bytes()).unwrap());
                               match rng.below(4) { 0 => b.primary.destination = e, 1 => b.primary.source = e, 2 => b.primary.report_to = e,
                                   _ => b.canonicals.insert(0, bp7::canonical::new_canonical_block(6, 77, 0, bp7::canonical::CanonicalData::PreviousNode(e))) }
                               b.to_cbor() }
                        // the outer array in definite-length form, announcing the true, a boundary or an absurd number of blocks
                        3 => { let mut b = gen_valid_bundle(&mut rng); let v = b.to_cbor(); crate::p_rx::outer_definite(&mut rng, &v) }
                        _ => { let mut b = gen_valid_bundle(&mut rng);
                               // an endpoint ID with a NUL byte is valid on the wire but cannot be a C string
                               if rng.chance(1, 8) { nul_bundle = true; let e = bp7::EndpointID::with_dtn(if rng.chance(1, 2) { "a\0b/x" } else { "n/\0" }).unwrap();
                                   if rng.chance(1, 2) { b.primary.source = e; } else { b.primary.destination = e; } }
                               // payloads at and beyond the 64 KiB head-width boundary now and then
                               if rng.chance(1, 12) { let n = *rng.pick(&[65_535usize, 65_536, 65_537, 70_000]); b.set_payload(rng.bytes(n)); }
                               // any block order is valid on the wire: the payload block need not be last
                               if rng.chance(1, 2) { for i in (1..b.canonicals.len()).rev() { let j = rng.below(i as u64 + 1) as usize; b.canonicals.swap(i, j); } }
                               let mut v = b.to_cbor();
                               // the same bundle as other conformant encoders may write it: chunked (indefinite-length)
                               // byte/text strings, semantic tags in front (serde_cbor skips tags)
                               if rng.chance(1, 4) { v = crate::p_rx::chunk_strings(&mut rng, &v); }
                               if rng.chance(1, 5) { let tag: &[u8] = *rng.pick(&[&[0xd9u8, 0xd9, 0xf7][..], &[0xd8, 0x18], &[0xc0], &[0xdb, 0, 0, 0, 0, 0, 0, 0, 1], &[0xd9, 0xd9, 0xf7, 0xd8, 0x18]]); let mut w = tag.to_vec(); w.extend_from_slice(&v); v = w; }
                               v }
                    };
                    let ok = Bundle::try_from(bytes.as_slice()).ok().map(|b| b.validate().is_ok()).unwrap_or(false);
                    calls.push(format!("D:{}", hex(&bytes)));
                    if ok { live_bundles.push(next); if nul_bundle { nul_handles.push(next); } next += 1; }
                }
                5 => {
                    clock += 10;
                    let src = gen_eid_wf(&mut rng).to_string();
                    let dst = loop { let e = gen_eid_wf(&mut rng); if e != bp7::EndpointID::none() { break e.to_string(); } };
                    if src.contains('\0') || dst.contains('\0') { continue; }
                    let pl = if rng.chance(1, 12) { let n = *rng.pick(&[65_535usize, 65_536, 70_000]); rng.bytes(n) } else { gen_payload(&mut rng) };
                    calls.push(format!("N:{}:{}:{}:{}:{}", hex(src.as_bytes()), hex(dst.as_bytes()), rng.u64b(), hex(&pl), clock));
                    live_bundles.push(next); next += 1;
                }
                6..=8 if !live_bundles.is_empty() => {
                    let k = *rng.pick(&live_bundles);
                    match rng.below(4) { 0 => { calls.push(format!("E:{}", k)); live_bufs.push(next); next += 1; } 1 => { calls.push(format!("M:{}", k)); if !nul_handles.contains(&k) { live_meta.push(next); next += 1; } }
                        2 => { calls.push(format!("P:{}", k)); live_bufs.push(next); next += 1;
                               // the same object asked again: payload, then encoding, then payload (a read must not consume anything)
                               if rng.chance(1, 3) { calls.push(format!("P:{}", k)); live_bufs.push(next); next += 1; calls.push(format!("E:{}", k)); live_bufs.push(next); next += 1; calls.push(format!("V:{}", k)); } }
                        _ => calls.push(format!("V:{}", k)) }
                }
                _ => {
                    // free something early
                    match rng.below(3) {
                        0 if !live_bufs.is_empty() => { let j = rng.below(live_bufs.len() as u64) as usize; calls.push(format!("FB:{}", live_bufs.remove(j))); }
                        1 if !live_meta.is_empty() => { let j = rng.below(live_meta.len() as u64) as usize; calls.push(format!("FM:{}", live_meta.remove(j))); }
                        2 if !live_bundles.is_empty() && rng.chance(1, 3) => { let j = rng.below(live_bundles.len() as u64) as usize; calls.push(format!("FU:{}", live_bundles.remove(j))); }
                        _ => {}
                    }
                }
            }
        }
        // complete the protocol in random order (sometimes leave it incomplete)
        if i % 10 != 0 {
            let mut frees: Vec<String> = live_bufs.iter().map(|k| format!("FB:{}", k)).chain(live_meta.iter().map(|k| format!("FM:{}", k))).chain(live_bundles.iter().map(|k| format!("FU:{}", k))).collect();
            while !frees.is_empty() { let j = rng.below(frees.len() as u64) as usize; calls.push(frees.remove(j)); }
        }
        if calls.is_empty() { continue; }
        emit(ctx, rep, format!("ffi {}", calls.join(";")));
    }
}
