//! Framework: PRNG, model child process, reporting.
use std::collections::{BTreeMap, HashSet};
use std::io::{BufRead, BufReader, Write};
use std::process::{Child, ChildStdin, ChildStdout, Command, Stdio};

pub struct Rng(pub u64);
impl Rng {
    pub fn new(seed: u64) -> Self {
        Rng(seed.wrapping_mul(0x9E3779B97F4A7C15).wrapping_add(0xD1B54A32D192ED03))
    }
    pub fn next(&mut self) -> u64 {
        self.0 = self.0.wrapping_add(0x9E3779B97F4A7C15);
        let mut z = self.0;
        z = (z ^ (z >> 30)).wrapping_mul(0xBF58476D1CE4E5B9);
        z = (z ^ (z >> 27)).wrapping_mul(0x94D049BB133111EB);
        z ^ (z >> 31)
    }
    pub fn below(&mut self, n: u64) -> u64 {
        if n == 0 { 0 } else { self.next() % n }
    }
    pub fn chance(&mut self, num: u64, den: u64) -> bool {
        self.below(den) < num
    }
    pub fn pick<'a, T>(&mut self, xs: &'a [T]) -> &'a T {
        &xs[self.below(xs.len() as u64) as usize]
    }
    pub fn bytes(&mut self, n: usize) -> Vec<u8> {
        (0..n).map(|_| self.next() as u8).collect()
    }
    /// boundary-biased u64
    pub fn u64b(&mut self) -> u64 {
        const B: [u64; 22] = [
            0, 1, 2, 22, 23, 24, 25, 254, 255, 256, 257, 65534, 65535, 65536, 65537,
            0xffff_fffe, 0xffff_ffff, 0x1_0000_0000, 0x1_0000_0001,
            1 << 63, u64::MAX - 1, u64::MAX,
        ];
        match self.below(10) {
            0..=4 => *self.pick(&B),
            5 => self.below(24),
            6 => self.below(70000),
            7 => self.next() >> self.below(64),
            _ => self.next(),
        }
    }
}

pub fn clip(s: &str) -> String {
    if s.len() > 400 { format!("{}…", &s[..400]) } else { s.to_string() }
}

pub fn hex(b: &[u8]) -> String {
    if b.is_empty() {
        return "-".to_string();
    }
    let mut s = String::with_capacity(b.len() * 2);
    for x in b {
        s.push_str(&format!("{:02x}", x));
    }
    s
}
pub fn unhex(s: &str) -> Option<Vec<u8>> {
    if s == "-" {
        return Some(vec![]);
    }
    if s.len() % 2 != 0 {
        return None;
    }
    let b = s.as_bytes();
    let mut out = Vec::with_capacity(b.len() / 2);
    for i in (0..b.len()).step_by(2) {
        let h = (b[i] as char).to_digit(16)?;
        let l = (b[i + 1] as char).to_digit(16)?;
        out.push((h * 16 + l) as u8);
    }
    Some(out)
}

pub struct Model {
    child: Child,
    stdin: Option<ChildStdin>,
    stdout: BufReader<ChildStdout>,
    pub lines: u64,
}
impl Model {
    pub fn new(path: &str) -> Model {
        let mut child = Command::new(path)
            .stdin(Stdio::piped())
            .stdout(Stdio::piped())
            .spawn()
            .unwrap_or_else(|e| panic!("cannot start model driver {}: {}", path, e));
        let stdin = child.stdin.take();
        let stdout = BufReader::with_capacity(1 << 20, child.stdout.take().unwrap());
        Model { child, stdin, stdout, lines: 0 }
    }
    /// Send the lines, read one answer per line.
    pub fn ask(&mut self, lines: &[String]) -> Vec<String> {
        let mut out = Vec::with_capacity(lines.len());
        let stdin = self.stdin.as_mut().unwrap();
        let stdout = &mut self.stdout;
        std::thread::scope(|s| {
            s.spawn(move || {
                let mut w = std::io::BufWriter::with_capacity(1 << 20, stdin);
                for l in lines {
                    debug_assert!(!l.contains('\n'));
                    w.write_all(l.as_bytes()).unwrap();
                    w.write_all(b"\n").unwrap();
                }
                w.flush().unwrap();
            });
            for _ in 0..lines.len() {
                let mut a = String::new();
                let n = stdout.read_line(&mut a).unwrap();
                if n == 0 {
                    a = "model-died".to_string();
                }
                out.push(a.trim_end().to_string());
            }
        });
        self.lines += lines.len() as u64;
        out
    }
    pub fn ask1(&mut self, line: &str) -> String {
        self.ask(&[line.to_string()]).pop().unwrap()
    }
}
impl Drop for Model {
    fn drop(&mut self) {
        drop(self.stdin.take());
        let _ = self.child.wait();
    }
}

thread_local! { pub static CATCHING: std::cell::Cell<u32> = const { std::cell::Cell::new(0) }; }

/// Run a closure, mapping a panic to `None`.
pub fn no_panic<T>(f: impl FnOnce() -> T) -> Option<T> {
    CATCHING.with(|c| c.set(c.get() + 1));
    let r = std::panic::catch_unwind(std::panic::AssertUnwindSafe(f)).ok();
    CATCHING.with(|c| c.set(c.get() - 1));
    r
}

/// Panics of the code under test (inside `no_panic`) are silent; panics of the harness itself are printed.
pub fn install_panic_hook() {
    std::panic::set_hook(Box::new(|info| {
        if CATCHING.with(|c| c.get()) == 0 {
            eprintln!("harness panic: {}", info);
        }
    }));
}

#[derive(Default)]
pub struct Report {
    pub property: String,
    pub evaluations: u64,
    pub distinct: HashSet<u64>,
    pub nontrivial_rule: String,
    pub samples: Vec<serde_json::Value>,
    pub dist: BTreeMap<String, u64>,
    pub disagreements: Vec<serde_json::Value>,
    pub n_disagreements: u64,
    pub oracle_failures: Vec<serde_json::Value>,
    pub n_oracle_failures: u64,
    pub known_hits: BTreeMap<String, u64>,
    pub support: BTreeMap<String, serde_json::Value>,
    pub exhaustive_parts: Vec<String>,
}

fn fnv(s: &str) -> u64 {
    let mut h: u64 = 0xcbf29ce484222325;
    for b in s.as_bytes() {
        h ^= *b as u64;
        h = h.wrapping_mul(0x100000001b3);
    }
    h
}

impl Report {
    pub fn new(p: &str, rule: &str) -> Report {
        Report { property: p.to_string(), nontrivial_rule: rule.to_string(), ..Default::default() }
    }
    pub fn count(&mut self, key: &str) {
        *self.dist.entry(key.to_string()).or_insert(0) += 1;
    }
    /// One compared case. `nontrivial` per the property's rule.
    pub fn case(&mut self, line: &str, imp: &str, model: &str, nontrivial: bool) {
        self.evaluations += 1;
        if nontrivial {
            self.distinct.insert(fnv(line));
        }
        if self.samples.len() < 6 || (self.evaluations % 997 == 0 && self.samples.len() < 12) {
            let clip = |s: &str| if s.len() > 300 { format!("{}…", &s[..300]) } else { s.to_string() };
            self.samples.push(serde_json::json!({"op": clip(line), "impl": clip(imp), "model": clip(model)}));
        }
        if imp.trim_end() != model.trim_end() {
            self.n_disagreements += 1;
            if self.disagreements.len() < 20 {
                self.disagreements.push(serde_json::json!({"op": line, "impl": imp, "model": model}));
            }
        }
    }
    /// The property predicate evaluated on the implementation alone failed.
    /// `key` identifies a known finding class (or "" if none applies).
    pub fn oracle_fail(&mut self, key: &str, line: &str, detail: &str) {
        if !key.is_empty() {
            *self.known_hits.entry(key.to_string()).or_insert(0) += 1;
        }
        self.n_oracle_failures += 1;
        if self.oracle_failures.len() < 20 {
            self.oracle_failures.push(serde_json::json!({"key": key, "op": line, "detail": detail}));
        }
    }
    pub fn to_json(&self) -> serde_json::Value {
        serde_json::json!({
            "property": self.property,
            "evaluations": self.evaluations,
            "distinct_nontrivial": self.distinct.len(),
            "rule": self.nontrivial_rule,
            "samples": self.samples,
            "distribution": self.dist,
            "n_disagreements": self.n_disagreements,
            "disagreements": self.disagreements,
            "n_oracle_failures": self.n_oracle_failures,
            "oracle_failures": self.oracle_failures,
            "known_hits": self.known_hits,
            "support": self.support,
            "exhaustive_parts": self.exhaustive_parts,
        })
    }
}

pub struct Exec {
    pub imp: String,
    pub oracle_fail: Option<String>,
    pub known_key: String,
    pub nontrivial: bool,
    /// extra distribution tags
    pub tags: Vec<String>,
    /// the request to put to the model when it differs from the op line (e.g. it carries values
    /// observed while running the implementation, like the creation timestamp the tool chose)
    pub model_line: Option<String>,
}
impl Exec {
    pub fn new(imp: String) -> Exec {
        Exec { imp, oracle_fail: None, known_key: String::new(), nontrivial: true, tags: vec![], model_line: None }
    }
    pub fn fail(mut self, f: Option<String>) -> Exec {
        if self.oracle_fail.is_none() { self.oracle_fail = f; }
        self
    }
}

pub struct Ctx {
    pub tier_thorough: bool,
    pub seed: u64,
    pub model: Model,
    pub replay: Option<String>,
}
impl Ctx {
    pub fn n(&self, quick: u64, thorough: u64) -> u64 {
        if self.tier_thorough { thorough } else { quick }
    }
}

/// Compare a batch of (line, impl answer, nontrivial) against the model.
pub fn compare_batch(ctx: &mut Ctx, rep: &mut Report, batch: &mut Vec<(String, String, bool, Option<String>)>) {
    if batch.is_empty() {
        return;
    }
    // BP7H_PINNED=op1,op2: ask the model for its rendition of the pinned (pre-fix) code
    let pinned: Vec<String> = std::env::var("BP7H_PINNED").map(|v| v.split(',').map(|s| s.to_string()).collect()).unwrap_or_default();
    let lines: Vec<String> = batch.iter().map(|x| {
        let l = x.3.as_ref().unwrap_or(&x.0);
        let op = l.split(' ').next().unwrap_or("");
        if pinned.iter().any(|p| p == op) { l.replacen(op, &format!("{}.pinned", op), 1) } else { l.clone() }
    }).collect();
    let answers = ctx.model.ask(&lines);
    for ((line, imp, nt, _), m) in batch.iter().zip(answers.iter()) {
        if m.trim_end() == "unmodelled" {
            // the model declares the input outside what it represents: not compared
            rep.count("model:unmodelled");
            continue;
        }
        rep.case(line, imp, m, *nt);
        // for `spec.*` ops the model's answer is the independent reference: a difference is a
        // failure of the property oracle, not only a correspondence break
        if line.starts_with("spec.") && imp.trim_end() != m.trim_end() {
            rep.oracle_fail("", line, &format!("implementation differs from the independent RFC reference: impl={} reference={}", clip(imp), clip(m)));
        }
    }
    batch.clear();
}

/// Leave the op line that is about to run in the file named by BP7H_LASTLINE (one open file, rewritten
/// in place): when the process dies inside the implementation (abort, allocation failure) the check
/// script reports that line as the failing input.
pub fn note_line(line: &str) {
    use std::io::{Seek, SeekFrom, Write};
    use std::sync::{Mutex, OnceLock};
    static F: OnceLock<Option<Mutex<std::fs::File>>> = OnceLock::new();
    let f = F.get_or_init(|| std::env::var("BP7H_LASTLINE").ok().and_then(|p| std::fs::OpenOptions::new().create(true).write(true).truncate(true).open(p).ok()).map(Mutex::new));
    if let Some(m) = f {
        if let Ok(mut g) = m.lock() {
            let _ = g.seek(SeekFrom::Start(0));
            let _ = g.write_all(line.as_bytes());
            let _ = g.set_len(line.len() as u64);
        }
    }
}

/// `Bundle::try_from(&[u8])` together with the other public ways to decode the same bytes
/// (`TryFrom<Vec<u8>>`, and `serde_cbor::from_reader` when the slice decodes): the first disagreement, if any.
pub fn decode_ways(bytes: &[u8]) -> (Option<Result<bp7::Bundle, bp7::error::Error>>, Option<String>) {
    use std::convert::TryFrom;
    let r = no_panic(|| bp7::Bundle::try_from(bytes));
    let v = no_panic(|| bp7::Bundle::try_from(bytes.to_vec()));
    let class = |x: &Option<Result<bp7::Bundle, bp7::error::Error>>| match x { None => "panic".to_string(), Some(Err(_)) => "err".to_string(), Some(Ok(b)) => format!("ok {:?}", b) };
    let mut diff = None;
    if class(&r) != class(&v) { diff = Some(format!("Bundle::try_from(&[u8]) and Bundle::try_from(Vec<u8>) disagree on the same bytes: {} vs {}", clip(&class(&r)), clip(&class(&v)))); }
    if let (None, Some(Ok(b))) = (&diff, &r) {
        // the reader-based entry point must agree on every input that IS the encoding of the bundle it decodes to
        // (conformant input). On malformed input the two may differ: after the error that EndpointID's visitor
        // swallows, a slice reader has consumed nothing of an over-long string and a stream reader everything up to
        // the end of input — no property demands agreement there (found on the unchanged tree, DESIGN 11.4).
        let conformant = no_panic(|| { let mut c = b.clone(); c.to_cbor() == bytes }).unwrap_or(false);
        if conformant {
            let rd = no_panic(|| serde_cbor::from_reader::<bp7::Bundle, _>(bytes).ok()).flatten();
            if rd.as_ref() != Some(b) { diff = Some("Bundle::try_from(&[u8]) accepts the encoding of a bundle, serde_cbor::from_reader yields something else".to_string()); }
        }
    }
    (r, diff)
}
