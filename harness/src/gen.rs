//! Seeded, type-directed generators over the crate's own types.
use crate::fw::Rng;
use crate::notation::dtn_address;
use bp7::bundle::Bundle;
use bp7::canonical::{new_canonical_block, CanonicalBlock, CanonicalData};
use bp7::crc::CrcValue;
use bp7::dtntime::CreationTimestamp;
use bp7::eid::{EndpointID, IpnAddress};
use bp7::primary::PrimaryBlock;
use std::time::Duration;

const PIECES: [&str; 30] = [
    "\u{0}",
    "a", "b", "node", "n1", "0", "1", "9", "-", ":", "%", "~", ".", "_", "ü", "é", "€", "\u{10348}", "x/y", "svc", "in", "A", " ", "+", "none",
    "\"", "\\", "\n", "\u{7f}", "\u{1}",
];

pub fn gen_name(rng: &mut Rng, allow_slash: bool, allow_empty: bool) -> String {
    // mostly short; now and then beyond any small fixed buffer (a few hundred bytes)
    let n = match rng.below(10) { 0 => if allow_empty { 0 } else { 1 }, 1..=5 => 1 + rng.below(2), 6..=8 => 1 + rng.below(5), _ => if rng.chance(1, 5) { 60 + rng.below(240) } else { 1 + rng.below(30) } };
    let mut s = String::new();
    for _ in 0..n {
        let p = *rng.pick(&PIECES);
        if !allow_slash && p.contains('/') { s.push('s'); } else { s.push_str(p); }
    }
    s
}

/// EIDs as the public constructors / the parser / the decoder produce them — built directly from the
/// enum variants, so that a change to a constructor shows up in the ops that call it, not as a crash here.
pub fn gen_eid_wf(rng: &mut Rng) -> EndpointID {
    match rng.below(10) {
        0 | 1 => EndpointID::DtnNone(1, 0),
        2..=4 => {
            let node = match rng.below(7) { 0 => rng.u64b().max(1), 1 => 1, 2 => u64::MAX, 3 => *rng.pick(&[u32::MAX as u64, u32::MAX as u64 + 1, 1 << 32, 1 << 63]), _ => 1 + rng.below(1000) };
            let svc = match rng.below(5) { 0 => 0, 1 => rng.u64b(), 2 => u64::MAX, _ => rng.below(1000) };
            EndpointID::Ipn(2, IpnAddress::new(node, svc))
        }
        _ => {
            let empty_ok = rng.chance(1, 6);
            let node = if empty_ok && rng.chance(1, 2) { String::new() } else { gen_name(rng, false, empty_ok) };
            let mut svc = match rng.below(6) { 0 => String::new(), 1 => format!("~{}", gen_name(rng, true, false)), _ => gen_name(rng, true, false) };
            // names that END in something a lenient reader would trim: NUL, white space, a byte-order mark, a slash
            if rng.chance(1, 12) { svc.push(*rng.pick(&['\u{0}', ' ', '\t', '\n', '\u{a0}', '\u{feff}', '/'])); if rng.chance(1, 3) { svc.push('\u{0}'); } }
            EndpointID::Dtn(1, dtn_address(format!("//{}/{}", node, svc).as_bytes()).unwrap())
        }
    }
}

/// EIDs including ones only direct construction can produce.
pub fn gen_eid_any(rng: &mut Rng) -> EndpointID {
    match rng.below(12) {
        0 => EndpointID::DtnNone(rng.below(4) as u8, rng.below(3) as u8),
        1 => EndpointID::Ipn(rng.below(4) as u8, IpnAddress::new(rng.below(3), rng.u64b())),
        2 => {
            // dtn ssp without the canonical shape
            let s = match rng.below(5) { 0 => "abc".to_string(), 1 => "/a/b".to_string(), 2 => "//x".to_string(), 3 => "/".to_string(), _ => gen_name(rng, true, false) };
            EndpointID::Dtn(rng.below(3) as u8, dtn_address(s.as_bytes()).unwrap())
        }
        _ => gen_eid_wf(rng),
    }
}

pub fn gen_crc(rng: &mut Rng, wf: bool) -> CrcValue {
    match rng.below(if wf { 10 } else { 11 }) {
        0..=3 => CrcValue::CrcNo,
        4 => CrcValue::Crc16Empty,
        5 => CrcValue::Crc32Empty,
        6 | 7 => CrcValue::Crc16([rng.next() as u8, rng.next() as u8]),
        8 | 9 => CrcValue::Crc32([rng.next() as u8, rng.next() as u8, rng.next() as u8, rng.next() as u8]),
        _ => CrcValue::Unknown(3 + rng.below(253) as u8),
    }
}

pub fn gen_payload(rng: &mut Rng) -> Vec<u8> {
    let n = match rng.below(20) { 0 => 0, 1 => 1, 2 => 23, 3 => 24, 4 => 255, 5 => 256, 6 => if rng.chance(1, 8) { 65535 } else { 300 }, 7 => if rng.chance(1, 8) { 65536 } else { 257 }, _ => rng.below(40) };
    rng.bytes(n as usize)
}

pub fn gen_block(rng: &mut Rng, wf: bool) -> CanonicalBlock {
    let num = match rng.below(6) { 0 => rng.u64b(), 1 => 1, _ => 1 + rng.below(40) };
    let flags = match rng.below(6) { 0 => rng.next() as u8, 1 => 2, 2 => 0xf0, _ => *rng.pick(&[0u8, 1, 2, 4, 16, 3]) };
    let kind = rng.below(12);
    let (btype, data) = match kind {
        0..=2 => (1u64, CanonicalData::Data(gen_payload(rng))),
        3 | 4 => (7, CanonicalData::BundleAge(rng.u64b())),
        5 | 6 => (10, CanonicalData::HopCount(*rng.pick(&[0u8, 1, 2, 31, 32, 254, 255]), match rng.below(4) { 0 => rng.next() as u8, 1 => 255, _ => rng.below(40) as u8 })),
        7 | 8 => (6, CanonicalData::PreviousNode(if wf { gen_eid_wf(rng) } else { gen_eid_any(rng) })),
        _ => {
            // unassigned / opaque types: neighbours of the assigned codes 1, 6, 7, 10 (2..5, 8, 9, 11, 12) well represented
            let t = match rng.below(6) { 0 => rng.u64b(), 1 => 11, 2 => 192, 3 => *rng.pick(&[2u64, 3, 4, 5, 8, 9, 11, 12, 13, 255, 256]),
                // codes that alias an assigned code when truncated or reduced (mod 64, mod 256, mod 2^16, mod 2^32)
                4 if rng.chance(1, 2) => *rng.pick(&[1u64, 6, 7, 10]) + *rng.pick(&[64u64, 128, 192, 256, 65_536, 1 << 32, 1 << 63]), _ => 2 + rng.below(250) };
            let t = if [1u64, 6, 7, 10].contains(&t) { 11 } else { t };
            (t, CanonicalData::Unknown(gen_payload(rng)))
        }
    };
    let (btype, data) = if !wf && rng.chance(1, 10) {
        // type / data mismatch
        match rng.below(4) {
            0 => (*rng.pick(&[1u64, 6, 7, 10, 99]), data),
            1 => (btype, CanonicalData::DecodingError),
            2 => (*rng.pick(&[1u64, 6, 7, 10]), CanonicalData::Unknown(gen_payload(rng))),
            _ => (btype, data),
        }
    } else { (btype, data) };
    let mut c = new_canonical_block(btype, num, flags, data);
    c.crc = gen_crc(rng, wf);
    c
}

pub fn gen_flags(rng: &mut Rng) -> u64 {
    const BITS: [u64; 9] = [0x1, 0x2, 0x4, 0x20, 0x40, 0x4000, 0x10000, 0x20000, 0x40000];
    match rng.below(8) {
        0 => rng.next(),
        1 => rng.u64b(),
        2 => 0xE218 | rng.below(8),
        _ => { let mut f = 0; for b in BITS { if rng.chance(1, 4) { f |= b; } } f }
    }
}

pub struct Opts { pub wf: bool, pub max_blocks: u64 }

pub fn gen_primary(rng: &mut Rng, wf: bool) -> PrimaryBlock {
    let mut p = PrimaryBlock::new();
    p.bundle_control_flags = gen_flags(rng);
    p.crc = gen_crc(rng, wf);
    p.destination = if wf { gen_eid_wf(rng) } else { gen_eid_any(rng) };
    p.source = if wf { gen_eid_wf(rng) } else { gen_eid_any(rng) };
    p.report_to = if wf { gen_eid_wf(rng) } else { gen_eid_any(rng) };
    // creation times: anywhere in u64, with the boundaries of the time formatting code (end of year 9999 as
    // DTN and as Unix time, the last value whose Unix form fits u64) well represented
    let t = if rng.chance(1, 6) { *rng.pick(&[252_455_615_999_999u64, 252_455_616_000_000, 252_455_616_000_001, 253_402_300_799_999, 253_402_300_800_000,
        u64::MAX - 946_684_800_000, u64::MAX - 946_684_799_999, u64::MAX, 1]) } else { rng.u64b() };
    p.creation_timestamp = CreationTimestamp::with_time_and_seq(t, rng.u64b());
    p.lifetime = Duration::from_millis(match rng.below(4) { 0 => 3_600_000, _ => rng.u64b() });
    if p.bundle_control_flags & 1 == 1 || (!wf && rng.chance(1, 10)) {
        p.fragmentation_offset = rng.u64b();
        p.total_data_length = rng.u64b();
    }
    p
}

pub fn gen_bundle(rng: &mut Rng, o: &Opts) -> Bundle {
    let p = gen_primary(rng, o.wf);
    let n = match rng.below(12) { 0 => 0, 1..=6 => 1 + rng.below(4), 7..=9 => rng.below(12), 10 => rng.below(o.max_blocks.min(40) + 1), _ => rng.below(o.max_blocks + 1) };
    let cs: Vec<CanonicalBlock> = (0..n).map(|_| gen_block(rng, o.wf)).collect();
    Bundle::new(p, cs)
}

/// A bundle that passes validation (for C07 base cases, C08, C11, C12, C13).
pub fn gen_valid_bundle(rng: &mut Rng) -> Bundle {
    let mut p = PrimaryBlock::new();
    let mut f = 0u64;
    for b in [0x4u64, 0x20, 0x40, 0x4000, 0x10000, 0x20000, 0x40000] { if rng.chance(1, 4) { f |= b; } }
    if rng.chance(1, 8) { f = 0x2 | (f & 0x64); }
    if rng.chance(1, 8) { f = (f & !0x4) | 1; }
    // bits no flag is assigned to (validation does not care; the reserved composite 0xE218 only counts
    // when all of its bits are set, which is avoided by never setting 0x0008 here)
    if rng.chance(1, 4) {
        const UNASSIGNED: [u64; 14] = [0x10, 0x80, 0x100, 0x200, 0x400, 0x800, 0x1000, 0x2000, 0x8000, 0x80000, 1 << 20, 1 << 21, 1 << 40, 1 << 63];
        for _ in 0..1 + rng.below(3) { f |= *rng.pick(&UNASSIGNED); }
    }
    p.bundle_control_flags = f;
    p.destination = loop { let e = gen_eid_wf(rng); if e != EndpointID::none() { break e; } };
    p.source = gen_eid_wf(rng);
    p.report_to = gen_eid_wf(rng);
    let t = if rng.chance(1, 6) { 0 } else { 1 + rng.u64b() / 2 };
    p.creation_timestamp = CreationTimestamp::with_time_and_seq(t, rng.u64b());
    p.lifetime = Duration::from_millis(match rng.below(3) { 0 => 3_600_000, _ => rng.u64b() });
    if f & 1 == 1 { p.fragmentation_offset = rng.u64b(); p.total_data_length = rng.u64b(); }
    let anon = p.source == EndpointID::none() || f & 2 != 0;
    let bf = |rng: &mut Rng| -> u8 { let x = *rng.pick(&[0u8, 1, 4, 16, 5, 2]); if anon { x & !2 } else { x } };
    let mut cs = vec![];
    let mut num = 2u64;
    if t == 0 || rng.chance(1, 3) { cs.push(new_canonical_block(7, num, bf(rng), CanonicalData::BundleAge(rng.u64b()))); num += 1 + rng.below(3); }
    if rng.chance(1, 2) { cs.push(new_canonical_block(10, num, bf(rng), CanonicalData::HopCount(*rng.pick(&[1u8, 2, 32, 255]), rng.below(40) as u8))); num += 1 + rng.below(3); }
    if rng.chance(1, 3) { cs.push(new_canonical_block(6, num, bf(rng), CanonicalData::PreviousNode(gen_eid_wf(rng)))); num += 1 + rng.below(3); }
    // opaque extension blocks; the same type may occur several times (only 6, 7, 10 are at-most-once)
    let opaque: [u64; 20] = [11, 192, 200, 4, 2, 3, 5, 8, 9, 12, 255, 1 << 40, 70, 71, 74, 199, 263, 65_542, (1 << 32) + 7, (1 << 32) + 10];
    let rep_t = *rng.pick(&opaque);
    for _ in 0..rng.below(4) { cs.push(new_canonical_block(if rng.chance(1, 2) { rep_t } else { *rng.pick(&opaque) }, num, bf(rng), CanonicalData::Unknown(gen_payload(rng)))); num += 1 + rng.below(3); }
    cs.push(new_canonical_block(1, 1, bf(rng), CanonicalData::Data(gen_payload(rng))));
    let crc = rng.below(3) as u8;
    let mut b = Bundle::new(p, cs);
    b.set_crc(crc);
    b.sort_canonicals();
    b
}
