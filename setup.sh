#!/bin/sh
# Build the framework from files on disk only (offline).
set -e
cd "$(dirname "$0")"
export CARGO_NET_OFFLINE=true
mkdir -p .build evidence
export CARGO_TARGET_DIR="$(pwd)/.build/harness"
python3 tools/extract.py
(cd lean/Bp7 && lake build Bp7 bp7model)
(cd harness && RUSTFLAGS="--cfg bp7_verif" cargo build --offline && RUSTFLAGS="--cfg bp7_verif" cargo build --offline --release)
echo setup-ok
